"""Real-code side for the parameter cleaners (C20/C13): runs `Parameter.clean` on concrete encoded values.

Run under /venv/bin/python:  run_clean.py cases.json out.json [repo_root]
A case: {"cls": "NumberParameter", "ctor": {...}, "value": ENC, "working_dir": str|None, "commands": {name: CMD}, "exists": [paths]}
ENC: {"I":n} {"F":x} {"B":b} {"S":s} {"N":0} {"L":[ENC..]} {"D":[[ENC,ENC]..]} {"T":"float"} {"O":{"kind":..}}
"""
import copy
import json
import os
import sys
import tempfile
import traceback
from numbers import Number

sys.path.insert(0, sys.argv[3] if len(sys.argv) > 3 else "/repo")

import numpy  # noqa: E402

FAMILY = ("ParameterNotValid", "PathDoesNotExist", "InvalidRelativePath", "ResultDoesNotExist", "ResultTypeNotValid",
          "ResultNotFuzzy", "ResultIsFuzzy")
TYPES = {"float": float, "int": int, "str": str, "numpy.float64": numpy.float64, "numpy.uint": numpy.uint, "bool": bool}


def build_param(params, spec):
    if spec is None:
        return None
    cls = getattr(params, spec["cls"])
    kw = {}
    for k, v in spec.get("ctor", {}).items():
        if k in ("value_type", "output_type"):
            kw[k] = build_param(params, v)
        elif k == "valid_types":
            kw[k] = {n: TYPES[t] for n, t in v.items()}
        else:
            kw[k] = v
    return cls(**kw)


class Env(object):
    def __init__(self, case):
        from mpilot import params, commands
        from mpilot.arguments import Argument

        self.params, self.commands_mod, self.Argument = params, commands, Argument
        self.cmd_objs = {}
        self.case = case

    def command(self, spec):
        key = json.dumps(spec, sort_keys=True)
        if key in self.cmd_objs:
            return self.cmd_objs[key]
        attrs = {"inputs": {}, "output": build_param(self.params, spec.get("output"))}
        if "is_fuzzy" in spec:
            attrs["is_fuzzy"] = spec["is_fuzzy"]
        attrs["__module__"] = "verif_stub_%d" % len(self.cmd_objs)
        cls = self.commands_mod.CommandMeta("Stub%d" % len(self.cmd_objs), (self.commands_mod.Command,), attrs)
        c = cls(spec.get("result_name", "r%d" % len(self.cmd_objs)), [], program=None)
        if spec.get("finished"):
            c.is_finished = True
            c._result = self.decode(spec.get("result", {"N": 0}))
        else:
            def boom(**kw):
                raise AssertionError("cleaning must not execute commands")
            c.execute = boom
        self.cmd_objs[key] = c
        return c

    def decode(self, e):
        (k, v), = e.items()
        if k == "I":
            return int(v)
        if k == "F":
            return float(v)
        if k == "B":
            return bool(v)
        if k == "S":
            return v
        if k == "N":
            return None
        if k == "L":
            return [self.decode(x) for x in v]
        if k == "D":
            return {self._hashable(self.decode(a)): self.decode(b) for a, b in v}
        if k == "X":
            # numbers that are not builtin int / float (the API can deliver them: numpy scalars, fractions, decimals)
            kind, _, text = v.partition(":")
            if kind == "np.float32":
                return numpy.float32(text)
            if kind == "np.float16":
                return numpy.float16(text)
            if kind == "np.int32":
                return numpy.int32(text)
            if kind == "Fraction":
                from fractions import Fraction
                return Fraction(text)
            if kind == "Decimal":
                from decimal import Decimal
                return Decimal(text)
            raise ValueError(e)
        if k == "T":
            return TYPES[v]
        if k == "O":
            kind = v.get("kind")
            if kind == "command":
                return self.command(v)
            if kind == "argument":
                return self.Argument(v.get("name", "a"), self.decode(v["value"]), v.get("lineno"))
            if kind == "ndarray":
                return numpy.ma.array(v.get("data", [1.0, 2.0]), mask=v.get("mask", [False, True]))
            return object()
        raise ValueError(e)

    def _hashable(self, x):
        try:
            hash(x)
            return x
        except TypeError:
            return repr(x)


def snapshot(x, depth=0):
    """structural description used for the purity comparison"""
    if isinstance(x, list):
        return ["L"] + [snapshot(i, depth + 1) for i in x]
    if isinstance(x, dict):
        return ["D"] + [[snapshot(k), snapshot(v)] for k, v in x.items()]
    if isinstance(x, numpy.ndarray):
        return ["A", numpy.asarray(numpy.ma.getdata(x)).tolist(), numpy.ma.getmaskarray(x).tolist()]
    if hasattr(x, "is_finished"):
        return ["C", id(x), x.is_finished, id(x._result)]
    if hasattr(x, "value") and hasattr(x, "lineno"):
        return ["G", id(x), snapshot(x.value)]
    return ["V", type(x).__name__, repr(x)]


def same(a, b):
    """Python-level equality as the property means it: equal value and, for numbers, the same kind"""
    if isinstance(a, bool) or isinstance(b, bool):
        return type(a) is type(b) and a == b
    if isinstance(a, Number) and isinstance(b, Number):
        return a == b and isinstance(a, int) == isinstance(b, int)
    if isinstance(a, (list, tuple)) and isinstance(b, (list, tuple)):
        return len(a) == len(b) and all(same(x, y) for x, y in zip(a, b))
    if isinstance(a, dict) and isinstance(b, dict):
        return list(a.keys()) == list(b.keys()) and all(same(a[k], b[k]) for k in a)
    if isinstance(a, numpy.ndarray) or isinstance(b, numpy.ndarray):
        return a is b
    return a is b or (type(a) is type(b) and a == b)


def typed_ok(env, case, param, v, r):
    """the documented result type per parameter class (C20 TYPED), evaluated concretely"""
    name = case["cls"]
    params = env.params
    if name == "Parameter":
        return r is v
    if name == "StringParameter":
        return isinstance(r, str) and (not isinstance(v, str) or r == v)
    if name == "NumberParameter":
        if not isinstance(r, Number):
            return False
        if isinstance(v, Number):
            return same(r, v)
        if isinstance(v, str):
            try:
                return same(r, int(v))
            except ValueError:
                return same(r, float(v))
        return False
    if name == "BooleanParameter":
        if not isinstance(r, bool):
            return False
        if isinstance(v, bool):
            return r == v
        if isinstance(v, int):
            return r == (v != 0)
        return True
    if name == "PathParameter":
        if not isinstance(r, str):
            return False
        s = v if isinstance(v, str) else str(v)
        wd = case.get("working_dir")
        if os.path.isabs(s):
            ok = r == s
        else:
            ok = wd is not None and r == os.path.join(wd, s)
        if case["ctor"].get("must_exist", True):
            ok = ok and os.path.exists(r)
        return ok
    if name == "ResultParameter":
        if not isinstance(r, env.commands_mod.Command):
            return False
        f = case["ctor"].get("is_fuzzy")
        rf = bool(getattr(r, "is_fuzzy", False))
        if f is True and not rf:
            return False
        if f is False and rf:
            return False
        return True
    if name == "ListParameter":
        return isinstance(r, list) and isinstance(v, (list, tuple)) and len(r) == len(v)
    if name == "TupleParameter":
        return isinstance(r, dict) and all(isinstance(k, str) and isinstance(x, str) for k, x in r.items())
    if name == "DataParameter":
        return r is v and isinstance(r, numpy.ndarray)
    if name == "DataTypeParameter":
        return any(r is t for t in param.valid_types.values())
    return True


def run_case(case):
    env = Env(case)
    from mpilot.exceptions import MPilotError

    tmp = None
    if case.get("make_files"):
        tmp = tempfile.mkdtemp(prefix="vclean")
        for f in case["make_files"]:
            open(os.path.join(tmp, f), "w").close()
    wd = case.get("working_dir")
    if wd == "$TMP":
        wd = tmp
        case = dict(case, working_dir=tmp)

    class Prog(object):
        pass

    prog = Prog()
    prog.working_dir = wd
    prog.commands = {n: env.command(dict(spec, result_name=n)) for n, spec in case.get("commands", {}).items()}
    param = build_param(env.params, {"cls": case["cls"], "ctor": case.get("ctor", {})})
    v = env.decode(case["value"])
    if isinstance(v, str) and v.startswith("$TMP/"):
        v = os.path.join(tmp, v[5:])
    before = snapshot(v)
    prog_before = (prog.working_dir, list(prog.commands.items()), [(c.is_finished, id(c._result)) for c in prog.commands.values()])
    out = {}

    def call(x):
        try:
            return ("return", param.clean(x, prog, 7))
        except Exception as e:  # noqa
            return ("raise", e)

    k1, r1 = call(v)
    out["outcome"] = k1
    if k1 == "raise":
        out["exc_class"] = type(r1).__name__
        out["exc_mro"] = [c.__name__ for c in type(r1).__mro__]
        out["exc_lineno"] = getattr(r1, "lineno", None)
        out["in_family"] = type(r1).__name__ in FAMILY or isinstance(r1, MPilotError)
        try:
            out["exc_msg"] = str(r1)[:200]
        except Exception as e2:
            out["exc_msg"] = "<__str__ raised %s>" % type(e2).__name__
            out["exc_str_error"] = type(e2).__name__
    else:
        out["result_type"] = type(r1).__name__
        out["result_repr"] = repr(r1)[:200]
        out["typed"] = bool(typed_ok(env, case, param, v, r1))
    k2, r2 = call(v)
    out["deterministic"] = (k1 == k2) and (same(r1, r2) if k1 == "return" else type(r1) is type(r2))
    if k1 == "return":
        k3, r3 = call(r1)
        out["idempotent"] = (k3 == "return") and same(r3, r1)
        if k3 != "return":
            out["idempotent_detail"] = "second clean raised %s" % type(r3).__name__
        else:
            out["idempotent_detail"] = "clean(r)=%r, r=%r" % (r3, r1)
    out["pure"] = snapshot(v) == before and prog_before == (
        prog.working_dir, list(prog.commands.items()), [(c.is_finished, id(c._result)) for c in prog.commands.values()])
    # cleaning must not leave state behind in the parameter object either: the used instance and a fresh one agree
    # on a second program (another working directory, no commands)
    tmp2 = tempfile.mkdtemp(prefix="vclean2")
    try:
        prog2 = Prog()
        prog2.working_dir = tmp2 if case.get("working_dir") is not None else None
        prog2.commands = dict(prog.commands)
        fresh = build_param(env.params, {"cls": case["cls"], "ctor": case.get("ctor", {})})

        def call2(p):
            try:
                return ("return", p.clean(v, prog2, 7))
            except Exception as e:  # noqa
                return ("raise", type(e).__name__)

        ku, ru = call2(param)
        kf, rf = call2(fresh)
        if not (ku == kf and (same(ru, rf) if ku == "return" else ru == rf)):
            out["pure"] = False
            out["history_detail"] = "a used parameter object answers %r, a fresh one %r" % ((ku, ru), (kf, rf))
    finally:
        import shutil as _sh

        _sh.rmtree(tmp2, ignore_errors=True)
    if tmp:
        import shutil

        shutil.rmtree(tmp, ignore_errors=True)
    return out


def main():
    cases = json.load(open(sys.argv[1]))
    outs = []
    for c in cases:
        try:
            outs.append(run_case(c))
        except Exception:
            outs.append({"outcome": "harness-error", "error": traceback.format_exc()[-1500:]})
    json.dump(outs, open(sys.argv[2], "w"), default=str)


if __name__ == "__main__":
    main()
