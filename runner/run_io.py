"""Real-code side for C17 / C18: CSV and NetCDF reading / writing on real files in a temporary directory.

run_io.py cases.json out.json [repo_root]
csv cases:
  {"kind": "csv_read", "text": "...file content...", "field": name, "params": {"MissingVal": x, "DataType": "Float"|"Integer"}}
  {"kind": "csv_roundtrip", "columns": [{"name": n, "data": [hex floats], "mask": [...], "dtype": "float"|"int"}], "read": {...}}
netcdf cases:
  {"kind": "nc_roundtrip", "shape": [...], "columns": [{"name","data","mask","dtype"}], "read_params": {...}, "fill": x}
  {"kind": "nc_read", "shape": [...], "data": [...], "mask": [...], "dtype": ..., "params": {...}}"""
import json
import os
import shutil
import sys
import tempfile
import traceback

root = sys.argv[3] if len(sys.argv) > 3 else "/repo"
sys.path.insert(0, root)

import numpy  # noqa: E402


def fl(x):
    return float.fromhex(x) if isinstance(x, str) else x


def dump_array(a):
    if isinstance(a, numpy.ma.MaskedArray):
        kind, mask = "MA", numpy.ma.getmaskarray(a).reshape(-1).tolist()
        data = numpy.asarray(a.data).reshape(-1)
    elif isinstance(a, numpy.ndarray):
        kind, data = "ND", a.reshape(-1)
        mask = [False] * data.size
    else:
        return {"kind": "other", "repr": repr(a)[:100]}
    dt = "int" if data.dtype.kind in "iu" else ("float" if data.dtype.kind == "f" else str(data.dtype))
    vals = [(float(v).hex() if dt == "float" else int(v)) for v in data.tolist()]
    return {"kind": kind, "dtype": dt, "np_dtype": str(data.dtype), "shape": list(a.shape), "data": vals, "mask": mask}


class Stub(object):
    def __init__(self, name, arr):
        self.result_name, self.result, self.is_finished = name, arr, True


def outcome(fn):
    from mpilot.exceptions import MPilotError

    try:
        return {"outcome": "return", "value": fn()}
    except Exception as e:
        try:
            msg = str(e)[:300]
        except Exception as e2:
            msg = "<__str__ raised %s>" % type(e2).__name__
        return {"outcome": "raise", "exc_class": type(e).__name__, "is_mpilot": isinstance(e, MPilotError), "msg": msg,
                "lineno": getattr(e, "lineno", None), "tb": traceback.format_exc()[-600:]}


def mk(col, shape=None):
    dt = numpy.int64 if col["dtype"] == "int" else numpy.float64
    data = numpy.array([fl(x) for x in col["data"]], dtype=dt)
    if shape:
        data = data.reshape(shape)
    mask = numpy.array(col.get("mask", [False] * data.size), dtype=bool).reshape(data.shape)
    if col.get("nomask") and not mask.any():
        return numpy.ma.array(data)
    a = numpy.ma.array(data, mask=mask)
    if "fill_value" in col:
        a.fill_value = col["fill_value"]
    return a


def run_case(case, tmp):
    kind = case["kind"]
    types = {"Float": float, "Integer": int}
    if kind.startswith("csv"):
        from mpilot.libraries.eems.csv.io import EEMSRead, EEMSWrite

        path = os.path.join(tmp, "data.csv")
        if kind == "csv_reread":
            with open(path, "w", newline="") as f:
                f.write(case["text"])

            def rd(params):
                kw = {"InFileName": path, "InFieldName": case["field"]}
                for k, v in params.items():
                    kw[k] = types[v] if k == "DataType" else v
                return EEMSRead("r", [], lineno=3).execute(**kw)

            first = rd(case["first"])
            out = {"first": dump_array(first), "after": []}
            for params in case["then"]:
                o = outcome(lambda: dump_array(rd(params)))
                out["after"].append({"params": params, "outcome": o["outcome"], "first_now": dump_array(first)})
            return out
        if kind == "csv_read":
            with open(path, "w", newline="") as f:
                f.write(case["text"])
            kw = {"InFileName": path, "InFieldName": case["field"]}
            for k, v in case.get("params", {}).items():
                kw[k] = types[v] if k == "DataType" else v
            if case.get("via_program"):
                from mpilot.program import Program, EEMS_CSV_LIBRARIES

                src = 'R = EEMSRead(InFileName = "%s", InFieldName = "%s")\n' % (path, case["field"])

                def go():
                    prog = Program.from_source(src, libraries=EEMS_CSV_LIBRARIES, working_dir=tmp)
                    prog.run()
                    return dump_array(prog.commands["R"].result)

                return outcome(go)
            r = outcome(lambda: dump_array(EEMSRead("r", [], lineno=3).execute(**kw)))
            return r
        cols = [Stub(c["name"], mk(c)) for c in case["columns"]]
        before = [dump_array(c.result) for c in cols]
        w = outcome(lambda: EEMSWrite("w", [], lineno=5).execute(OutFileName=path, OutFieldNames=cols))
        out = {"write": {k: v for k, v in w.items() if k != "value"}}
        out["inputs_after"] = [dump_array(c.result) for c in cols]
        out["inputs_before"] = before
        if w["outcome"] == "return":
            out["text"] = open(path, newline="").read()
            out["reads"] = []
            for c in case["columns"]:
                kw = {"InFileName": path, "InFieldName": c["name"]}
                for k, v in case.get("read", {}).items():
                    kw[k] = types[v] if k == "DataType" else v
                if c["dtype"] == "int" and "DataType" not in kw and case.get("typed_read"):
                    kw["DataType"] = int
                out["reads"].append(outcome(lambda kw=kw: dump_array(EEMSRead("r", [], lineno=3).execute(**kw))))
        return out
    from mpilot.libraries.eems.netcdf.io import EEMSRead, EEMSWrite
    from netCDF4 import Dataset

    shape = case["shape"]
    tpl = os.path.join(tmp, "template.nc")
    dims = ["d%d" % i for i in range(len(shape))]
    with Dataset(tpl, "w") as ds:
        for d, n in zip(dims, shape):
            ds.createDimension(d, n)
            if case.get("packed_dims"):
                # CF-packed coordinates: 16-bit integers with scale_factor / add_offset (the library unpacks on reading, packs on writing)
                v = ds.createVariable(d, "i2", (d,))
                v.setncattr("scale_factor", 0.5)
                v.setncattr("add_offset", 10.0)
            else:
                v = ds.createVariable(d, "f8", (d,))
            v[:] = numpy.arange(n) * 1.5 + 0.25 + (10.0 if case.get("packed_dims") else 0.0)
            v.setncattr("units", "m_" + d)
        tv = ds.createVariable("tplvar", "f8", tuple(dims))
        tv[:] = numpy.zeros(shape)
    nvalid = {"Float": numpy.float64, "Integer": int, "Positive Float": numpy.float64, "Positive Integer": numpy.uint, "Fuzzy": numpy.float64}
    if kind == "nc_roundtrip":
        path = os.path.join(tmp, "out.nc")
        cols = [Stub(c["name"], mk(c, shape)) for c in case["columns"]]
        before = [dump_array(c.result) for c in cols]
        w = outcome(lambda: EEMSWrite("w", [], lineno=5).execute(OutFileName=path, OutFieldNames=cols, DimensionFileName=tpl, DimensionFieldName="tplvar"))
        out = {"write": {k: v for k, v in w.items() if k != "value"}, "inputs_before": before, "inputs_after": [dump_array(c.result) for c in cols]}
        if w["outcome"] == "return":
            with Dataset(tpl) as tds:
                out["template_dims"] = {d: [float(x).hex() for x in tds[d][:].tolist()] for d in dims}
            with Dataset(path) as ds:
                out["dims"] = {d: {"size": len(ds.dimensions[d]), "values": [float(x).hex() for x in ds[d][:].tolist()],
                                   "units": ds[d].getncattr("units") if "units" in ds[d].ncattrs() else None} for d in dims if d in ds.variables}
                out["variables"] = [v for v in ds.variables if v not in dims]
            out["reads"] = []
            for c in case["columns"]:
                kw = {"InFileName": path, "InFieldName": c["name"]}
                args = []
                for k, v in case.get("read_params", {}).items():
                    kw[k] = nvalid[v] if k == "DataType" else v
                    if k == "DataType":
                        from mpilot.arguments import Argument
                        args.append(Argument("DataType", v, 1))
                out["reads"].append(outcome(lambda kw=kw, args=args: dump_array(EEMSRead("r", args, lineno=3).execute(**kw))))
        return out
    if kind == "nc_reread":
        path = os.path.join(tmp, "in.nc")
        with Dataset(path, "w") as ds:
            for d, n in zip(dims, shape):
                ds.createDimension(d, n)
            a = mk(case, shape)
            v = ds.createVariable("V", a.dtype.char, tuple(dims))
            v[:] = a

        def rd(params):
            from mpilot.arguments import Argument

            kw = {"InFileName": path, "InFieldName": "V"}
            args = []
            for k, v in params.items():
                kw[k] = nvalid[v] if k == "DataType" else v
                if k == "DataType":
                    args.append(Argument("DataType", v, 1))
            return EEMSRead("r", args, lineno=3).execute(**kw)

        first = rd(case["first"])
        out = {"first": dump_array(first), "after": []}
        for params in case["then"]:
            o = outcome(lambda: dump_array(rd(params)))
            out["after"].append({"params": params, "outcome": o["outcome"], "first_now": dump_array(first)})
        return out
    if kind == "nc_read":
        path = os.path.join(tmp, "in.nc")
        with Dataset(path, "w") as ds:
            for d, n in zip(dims, shape):
                ds.createDimension(d, n)
            a = mk(case, shape)
            v = ds.createVariable("V", a.dtype.char, tuple(dims), fill_value=case.get("file_fill"))
            v[:] = a
        if case.get("via_program"):
            # through the loader, with the type name spelled as given: the cleaner and the reader must agree on what the name means
            from mpilot.program import Program, EEMS_NETCDF_LIBRARIES

            extra = "".join(', %s = %s' % (k, v) for k, v in case.get("params", {}).items() if k != "DataType")
            src = 'R = EEMSRead(InFileName = "%s", InFieldName = V, DataType = "%s"%s)\n' % (path, case["spelled"], extra)

            def go():
                prog = Program.from_source(src, libraries=EEMS_NETCDF_LIBRARIES, working_dir=tmp)
                prog.run()
                return dump_array(prog.commands["R"].result)

            return outcome(go)
        kw = {"InFileName": path, "InFieldName": case.get("field", "V")}
        args = []
        for k, v in case.get("params", {}).items():
            kw[k] = nvalid[v] if k == "DataType" else v
            if k == "DataType":
                from mpilot.arguments import Argument
                args.append(Argument("DataType", v, 1))
        return outcome(lambda: dump_array(EEMSRead("r", args, lineno=3).execute(**kw)))
    raise ValueError(kind)


def main():
    cases = json.load(open(sys.argv[1]))
    outs = []
    import warnings

    warnings.simplefilter("ignore")
    for c in cases:
        tmp = tempfile.mkdtemp(prefix="vio")
        try:
            outs.append(run_case(c, tmp))
        except Exception:
            outs.append({"harness_error": traceback.format_exc()[-1500:]})
        finally:
            shutil.rmtree(tmp, ignore_errors=True)
    json.dump(outs, open(sys.argv[2], "w"), default=str)


if __name__ == "__main__":
    main()
