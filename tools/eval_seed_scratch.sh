#!/bin/sh
# usage: tools/eval_seed_scratch.sh <PROP> <dir with patch.diff demo.py>
# Like eval_seed.sh, but /repo is never touched: the change lives in a scratch worktree and the check is pointed at it
# with MPILOT_REPO. (Evidence files are rewritten by such runs: run tools/regen_evidence.sh before committing.)
PROP="$1"; DIR="$2"
W=/tmp/evs-$$
git -C /repo worktree add -q --detach "$W" HEAD || exit 9
( cd "$W" && PYTHONPATH="$W" /venv/bin/python "$DIR/demo.py" "$W" >/tmp/evs-$$.base 2>&1 ); BASE=$?
git -C "$W" apply "$DIR/patch.diff" || { echo "patch does not apply"; git -C /repo worktree remove --force "$W"; exit 9; }
( cd "$W" && /venv/bin/python -m pytest -q -p no:cacheprovider tests 2>&1 | tail -1 ) > /tmp/evs-$$.tests
( cd "$W" && PYTHONPATH="$W" /venv/bin/python "$DIR/demo.py" "$W" >/tmp/evs-$$.mut 2>&1 ); MUT=$?
echo "demo on unchanged: exit=$BASE; tests with change: $(cat /tmp/evs-$$.tests); demo with change: exit=$MUT"
rm -f /tmp/evs-$$.*
if [ "$BASE" != 0 ] || [ "$MUT" = 0 ]; then echo "NOT CONFIRMED"; git -C /repo worktree remove --force "$W"; exit 8; fi
cd /verif
MPILOT_REPO="$W" ./check $PROP --tier quick > /tmp/evs-check-$PROP.out 2>&1; RC=$?
echo "check $PROP exit=$RC"; grep -E "^(VIOLATION|UNDECIDED|CHECKER-ERROR)" /tmp/evs-check-$PROP.out | head -6; tail -1 /tmp/evs-check-$PROP.out
git -C /repo worktree remove --force "$W"
