#!/usr/bin/env python3
"""Regenerates /verif/MANIFEST.json from the table below (kept in one place so it stays valid)."""
import json

TECH = "contract-based deductive verification: sidecar pre/postconditions + loop invariants on the real functions, VC generation from the AST (pyvc), SMT discharge (z3/cvc5); counter-models replayed on the real code"
NOTE_MA = ("Trusted: pyvc itself, z3/cvc5, the assumed numpy.ma/builtin contracts (DESIGN 4.2), A-REAL (floats as reals), statistics as "
           "uninterpreted functions of the valid view. Helper bodies insure_fuzzy / make_masked / validate_array_shapes are verified against "
           "the contracts their call sites assume. A bounded concrete battery (labelled bounded, not counted as proved) cross-checks the assumed "
           "numpy axioms against the real library and is the fallback search when a changed body leaves the modelled subset.")
CLAIMED = {
 "C03": ("proof", "kind=MA, mask biconditional and value-at-valid-cells postconditions of the 31 data execute bodies; loop/fold invariants; payload symbolic and unreachable from the spec", NOTE_MA),
 "C04": ("proof", "ensures -1<=val<=1 at valid cells (and dtype float) on every returning path of the 14 is_fuzzy commands and of insure_fuzzy; parameters unconstrained reals", NOTE_MA),
 "C05": ("proof", "ensures shape(result)=shape(input) with symbolic rank, pointwise mask/value clauses over an uninterpreted Cell sort (equivariance under any cell bijection follows), stack-construction requirements checked at the call site", NOTE_MA),
 "C06": ("proof", "value/mask postconditions = EEMS operator specs for the 7 operators (recursive max/min/sum specs, sorted-column spec for XOr/SelectedUnion), biconditional error clauses", NOTE_MA),
 "C07": ("proof", "value/mask/dtype postconditions and biconditional raises clauses (raises_only) of the 10 arithmetic commands, dtype symbolic per input; validate_array_shapes body verified", NOTE_MA),
 "C08": ("proof", "value/mask postconditions (lin/curve/cat specs) and raises clauses of 14 conversion commands; curve loop invariant; modular super() calls through the callee's contract", NOTE_MA),
 "C09": ("proof", "frame obligation per execute and helper: every pre-existing array unchanged at valid cells, mask, dtype, shape", NOTE_MA),
 "C01": ("proof", "heap-level contracts with ghost execution counters: Command.run / Command.result / Command.validate_params / Program.run bodies verified against Inv (finished <=> executed exactly once), Mono (finished results never change), `returns => every command finished and executed exactly once`, `re-run executes nothing`, plus touches-all-refs of the 32 built-in execute bodies",
         "Trusted: pyvc, z3 (E-matching, MBQI only for counter-models), the plugin contract of Command.execute for third-party plugins, class invariants of Command/Argument objects, A-LOCALS, A-REC, C20's behavioural contract of Parameter.clean. Obligations over the quantified heap have no concretiser: a regression against the committed ledger is reported with the solver's reason (no-failing-input-found); the bounded graph battery on the real code supplies failing inputs where it can."),
 "C14": ("proof", "Command.run: re-entering a running, unfinished command raises RecursiveModelStructure with no effect and never returns; Program.run: returns => every command finished; lemmas RANK / NO-CYCLE-1..5: a heap where every command is finished has no reference cycle, so a cyclic model can never end in a normal return; recursion is cut at the first re-entry",
         "Trusted: as C01. That the error raised for a cyclic model is RecursiveModelStructure (and not an earlier, unrelated error of the same model) is shown for the re-entry point itself; the bounded battery runs every cyclic digraph on <=3 (thorough: 4) commands on the real code."),
 "C10": ("other", "proved obligations on mpilot's own parser code: 138 regular-language lemmas over the token regexes extracted from the source in PLY's order (documented lexemes accepted exactly, no pre-emption, maximal munch, layout ignored), token-function contracts (number written / unescaped text between the delimiting quotes / SyntaxError only), one contract per grammar action and production (p[0] = the abstract-syntax value: order and slots), Parser.parse per-call state; the PLY lex/yacc engines are an assumed contract; B-PARSE: parse(render(ast)) = ast and rejection of corrupted texts on the real parser (bounded)",
         "Level `other`: the engines (table-driven PLY code) are not under contract, so 'parsing returns exactly ...' end to end rests on the assumed LEX/YACC contracts plus the bounded stand-in. One known finding (unquoted text ending in a number token is rejected) is listed in known_findings.json."),
 "C11": ("other", "proved: t_newline/t_STRING advance lineno by exactly the line breaks consumed, no other rule consumes a line break (L-NL lemmas), count_line_breaks, Parser.parse resets lineno before every parse, every node-building action stores p.lineno(1), exception classes and the parameter cleaners report the line they were given; B-LINES: real parses with CRLF, comments, multi-line arguments and repeated parses on one Parser (bounded)",
         "Level `other`: the step from token lines to p.lineno(k) is the assumed YACC contract. Line threading through from_source/add_command and the CLI window are added under C12/C13 when those are registered."),
 "C15": ("other", "contracts of the serialisers nested in Program.to_string verified by symbolic execution against the canonical renderer (strings quoted and escaped, references bare / by result name, integers, floats with a decimal point in exponent form), regular-language lemmas that every written number / string is an INT / FLOAT / STRING lexeme of the extracted lexer; bounded round trip from_source(to_string(P)) on the real code for API- and source-built programs",
         "Level `other`: the load-back step is C10 (assumed PLY engines), join/format over whole commands is not put under contract (only the value level is), unescape(escape(s)) = s is an assumed fact about unicode_escape."),
 "C16": ("other", "TABLE: every entry of the extracted EEMS_COMMANDS literal names a command class of the EEMS libraries (exhaustive; two entries are a recorded known finding); contracts of convert_eems2_commands and its nested find_argument verified by symbolic execution: find_argument = value of the first argument with that name else None (loop invariant), each appended node has result name = own name / NewFieldName / InFieldName in that order, command mapped through the table, NewFieldName/OutFileName arguments dropped in order, line kept, one node per parsed node; bounded: Program.from_source of v2 texts vs their v3 transcriptions on the real loader",
         "Level `other` because two table obligations are not discharged (known finding: ScoreRangeBenefit/ScoreRangeCost do not exist) and the v2 syntax step rests on C10's assumed PLY engines."),
 "C17": ("other", "bounded stand-in B-CSV on real files (reads of generated tables: row order, blank lines, element type, missing value, other columns irrelevant, file line of a non-numeric cell; bit-identical write->read round trips over a double lattice incl. subnormals, extremes, -0.0), plus proved obligations on the library's error classes (constructible, printable, line kept) and on validate_array_shapes",
         "Level `other`: csv/open/float/repr/numpy are external; the deciding steps of this property live there, so the claim is the bounded stand-in plus the contracts that can be stated on mpilot's own code. See DESIGN section 6 (C17)."),
 "C18": ("other", "bounded stand-in B-NC on real NetCDF files (write->read over shapes of rank 1-3, element kinds, mask placements incl. nomask, several results written together, every combination of DataType x MissingValue, template dimension variables/values/attributes copied), plus proved obligations on the library's error classes and on validate_array_shapes / insure_fuzzy",
         "Level `other`: the netCDF C library and numpy are external. Four genuine defects of the reader/writer were found by this check and repaired (fix: commits)."),
 "C19": ("other", "expression-level contracts proved by SMT (strings): the registry-selection predicate of Program.__init__ equals the statement's `requested library or its sub-module`; duplicate detection per command name among the selected entries; command_library = name -> class over exactly the selected entries; CommandMeta.__new__ registers iff no entry with the same (module, command name) exists and the registry is monotone. load_commands / the import system / Counter are assumed; a bounded history battery (generated packages with prefix-related names, earlier Program constructions and run-time class definitions, compared with a fresh interpreter) runs on the real code",
         "Level `other`: the deciding expressions are under contract and proved for all strings, but Program.__init__ as a whole (set iteration, Counter, import side effects) is not symbolically executed; history independence is a lemma over those expression contracts plus the bounded battery."),
 "C20": ("proof", "TYPED / RAISES_ONLY / PURE / DETERMINISTIC / IDEMPOTENT obligations of the ten Parameter.clean bodies over an arbitrary dynamic value (recursive Val datatype), symbolic parameter configuration and program",
         "Trusted: pyvc, z3/cvc5, assumed contracts of int()/float()/str()/isinstance/os.path/dict lookup over Val (pyvc/dyn.py), A-TUPLE, behavioural contract assumed for sub-parameters (proved per class: induction on parameter structure), class invariants of parameter objects. Bounded value-alphabet battery on the real cleaners is labelled bounded."),
}
REASONS = {}
ALL = ["C%02d" % i for i in range(1, 21)]


def main():
    checks = []
    for pid, (level, txt, note) in CLAIMED.items():
        checks.append({
            "property_id": pid,
            "quick_cmd": "./check %s --tier quick" % pid,
            "thorough_cmd": "./check %s --tier thorough" % pid,
            "evidence_file": "/verif/evidence/%s.json" % pid,
            "replay_cmd_template": "./check %s --replay {path}" % pid,
            "engine": "pyvc",
            "level_claimed": {"category": level, "text": "Contract-based deductive verification of the real code: " + txt + ". VCs are generated by pyvc from /repo's current source on every run and discharged by z3 (cvc5 on unknown) for all inputs and iterations; counter-models are replayed on the real code.", "design_ref": "DESIGN.md sections 2, 4, 6 (%s)" % pid},
            "level_note": note,
            "technique": TECH,
        })
    na = [{"property_id": p, "reason": REASONS.get(p, "contracts not completed yet in this session (work in progress; DESIGN.md section 10)")} for p in ALL if p not in CLAIMED]
    m = {"version": 1,
         "setup_cmd": "sh -c 'cd /verif && python3-vt -c \"import z3\" && /venv/bin/python -c \"import numpy, mpilot\"'",
         "hooks": {"guard": "MPILOT_VERIF", "enable": "not used: all contracts, ghost state and monitors are sidecar; /repo is read as text by the prover and imported unmodified by the replay side", "baseline_off_cmd": "cd /repo && /venv/bin/python -m pytest -ra -q -p no:cacheprovider --timeout=900 --continue-on-collection-errors", "source_commits": [], "add_only": True},
         "engines": [{"name": "pyvc", "path": "/verif/pyvc", "serves_properties": sorted(CLAIMED), "kind_free_text": "home-built VC generator (Python ast -> z3/cvc5) with sidecar contracts in /verif/contracts and /verif/pyvc/*props.py; replay of counter-models on the real code under /venv/bin/python"}],
         "checks": checks,
         "notes": "See DESIGN.md. Exit codes: 0 held, 1 VIOLATION, 2 undecided, 3 checker error.",
         "not_applicable": na}
    json.dump(m, open("/verif/MANIFEST.json", "w"), indent=1)


if __name__ == "__main__":
    main()
