#!/bin/sh
# usage: tools/eval_seed.sh <PROP> <dir with patch.diff demo.py> [more props to run...]
# Confirms the seeded change in a scratch worktree (tests pass, demo fails with / passes without),
# then applies it to /repo, runs ./check for the property, and undoes it straight afterwards.
PROP="$1"; DIR="$2"; shift 2
W=/tmp/ev-$$
git -C /repo worktree add -q "$W" HEAD || exit 9
( cd "$W" && PYTHONPATH="$W" /venv/bin/python "$DIR/demo.py" "$W" >/tmp/ev-$$.base 2>&1 ); BASE=$?
git -C "$W" apply "$DIR/patch.diff" || { echo "patch does not apply"; git -C /repo worktree remove --force "$W"; exit 9; }
( cd "$W" && /venv/bin/python -m pytest -q -p no:cacheprovider tests 2>&1 | tail -1 ) > /tmp/ev-$$.tests
( cd "$W" && PYTHONPATH="$W" /venv/bin/python "$DIR/demo.py" "$W" >/tmp/ev-$$.mut 2>&1 ); MUT=$?
git -C /repo worktree remove --force "$W"
echo "demo on unchanged: exit=$BASE; tests with change: $(cat /tmp/ev-$$.tests); demo with change: exit=$MUT"
rm -f /tmp/ev-$$.*
if [ "$BASE" != 0 ] || [ "$MUT" = 0 ]; then echo "NOT CONFIRMED"; exit 8; fi
git -C /repo apply "$DIR/patch.diff" || exit 9
cd /verif
for P in $PROP "$@"; do
  ./check $P --tier quick > /tmp/ev-check-$P.out 2>&1; RC=$?
  echo "check $P exit=$RC"; grep -E "^(VIOLATION|UNDECIDED|CHECKER-ERROR)" /tmp/ev-check-$P.out | head -6; tail -1 /tmp/ev-check-$P.out
done
git -C /repo checkout -- .
git -C /repo status --short | head -3
