#!/bin/sh
# Re-runs every registered quick check on the unchanged /repo so that the committed evidence files describe exactly such a run.
cd "$(dirname "$0")/.." || exit 3
export VERIF_SEED=${VERIF_SEED:-1}
git -C /repo diff --quiet || { echo "/repo has local changes"; exit 3; }
for p in C01 C02 C03 C04 C05 C06 C07 C08 C09 C10 C11 C12 C13 C14 C15 C16 C17 C18 C19 C20; do
  s=$(date +%s)
  ./check $p --tier quick > .work/regen_$p.log 2>&1
  echo "$p exit=$? $(( $(date +%s) - s ))s $(tail -1 .work/regen_$p.log)"
done
python3-vt - <<'PY'
import json
m = json.load(open("MANIFEST.json"))
for c in m["checks"]:
    e = json.load(open(c["evidence_file"]))
    assert e["level"] == c["level_claimed"]["category"], (c["property_id"], e["level"], c["level_claimed"]["category"])
    assert e["tier"] == "quick", c["property_id"]
print("evidence levels and tiers consistent with MANIFEST")
PY
