#!/usr/bin/env python3
"""Records, for every loop / comprehension that has a loop contract, the names its header binds and its body assigns
(baseline/loop_names.json). Run on the tree the contracts were written against; pyvc uses it to follow renamed locals."""
import json
import os
import sys

sys.path.insert(0, os.path.join(os.path.dirname(os.path.abspath(__file__)), ".."))
from pyvc.extract import Repo  # noqa: E402
from pyvc.engine import Engine  # noqa: E402
from pyvc import registry, spec as S  # noqa: E402
import ast  # noqa: E402


def main():
    repo = Repo(sys.argv[1] if len(sys.argv) > 1 else "/repo")
    registry.load(repo)
    import pyvc.paramprops, pyvc.convprops, pyvc.serprops, pyvc.heapprops  # noqa: F401,E401 (register their loop contracts)

    out = {}
    eng = Engine(repo, {}, {})
    for mod in repo.modules.values():
        for fi in mod.functions.values():
            eng.frames = [fi]
            fors = [n for n in eng._ordered_nodes(fi.node) if isinstance(n, (ast.For, ast.While))]
            for i, n in enumerate(fors):
                t, a = eng.loop_names(n)
                out["%s|for|%d" % (fi.key, i)] = {"targets": t, "assigned": a}
            for n in eng._ordered_nodes(fi.node):
                if isinstance(n, (ast.ListComp, ast.GeneratorExp, ast.DictComp, ast.SetComp)):
                    t, a = eng.loop_names(n)
                    out["%s|comp|%s" % (fi.key, eng.loop_ordinal("comp", n))] = {"targets": t, "assigned": a}
    path = os.path.join(os.path.dirname(os.path.abspath(__file__)), "..", "baseline", "loop_names.json")
    json.dump(out, open(path, "w"), indent=0, sort_keys=True)
    print(len(out), "loops recorded")


if __name__ == "__main__":
    main()
