#!/usr/bin/env python3
"""Prints the markdown table of seeded changes (seeded/*/meta.json) used in DESIGN.md section 13."""
import glob
import json
import os

rows = []
for p in sorted(glob.glob(os.path.join(os.path.dirname(os.path.abspath(__file__)), "..", "seeded", "*", "meta.json"))):
    m = json.load(open(p))
    rows.append("| %s | %s | %s | %s |" % (m["id"], m["change"].replace("|", "/"), m["needs_to_manifest"].replace("|", "/"), m["caught_by"].replace("|", "/")))
print("| id | change (compiles, 66 tests pass) | needs | caught by |")
print("|---|---|---|---|")
print("\n".join(rows))
