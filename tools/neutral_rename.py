#!/usr/bin/env python3
"""Self-validation helper: renames every local variable of every function in the given files (behaviour-preserving edit).
usage: neutral_rename.py <suffix> file.py ...   (rewrites the files in place; use on a scratch worktree only)"""
import ast
import sys


class Renamer(ast.NodeTransformer):
    def __init__(self, mapping):
        self.m = mapping

    def visit_Name(self, node):
        if node.id in self.m:
            node.id = self.m[node.id]
        return node

    def visit_FunctionDef(self, node):
        return node  # nested functions are handled on their own (closures keep outer names: skipped below)

    def visit_Lambda(self, node):
        return node

    def visit_ExceptHandler(self, node):
        if node.name in self.m:
            node.name = self.m[node.name]
        self.generic_visit(node)
        return node


def local_names(fn):
    params = {a.arg for a in fn.args.args + fn.args.kwonlyargs + fn.args.posonlyargs}
    if fn.args.vararg:
        params.add(fn.args.vararg.arg)
    if fn.args.kwarg:
        params.add(fn.args.kwarg.arg)
    names, banned = set(), set(params)
    nested_uses = set()
    for n in ast.walk(fn):
        if isinstance(n, (ast.Global, ast.Nonlocal)):
            banned.update(n.names)
        if n is not fn and isinstance(n, (ast.FunctionDef, ast.Lambda)):
            for x in ast.walk(n):
                if isinstance(x, ast.Name):
                    nested_uses.add(x.id)
            if isinstance(n, ast.FunctionDef):
                banned.add(n.name)

    def walk(n):
        for c in ast.iter_child_nodes(n):
            if isinstance(c, (ast.FunctionDef, ast.Lambda)):
                continue
            yield c
            for x in walk(c):
                yield x

    for n in walk(fn):
        if isinstance(n, ast.Name) and isinstance(n.ctx, ast.Store):
            names.add(n.id)
        elif isinstance(n, ast.ExceptHandler) and n.name:
            names.add(n.name)
    return {n for n in names if n not in banned and n not in nested_uses and not n.startswith("__")}


def main():
    suffix = sys.argv[1]
    for path in sys.argv[2:]:
        tree = ast.parse(open(path).read())
        count = 0
        for fn in [n for n in ast.walk(tree) if isinstance(n, ast.FunctionDef)]:
            loc = local_names(fn)
            if not loc:
                continue
            mapping = {n: n + suffix for n in loc}
            r = Renamer(mapping)
            fn.body = [r.visit(s) if not isinstance(s, ast.FunctionDef) else s for s in fn.body]
            count += len(mapping)
        open(path, "w").write(ast.unparse(tree) + "\n")
        print(path, count, "locals renamed")


if __name__ == "__main__":
    main()
