import sys, time
sys.path.insert(0, '/verif')
from pyvc.extract import Repo
from pyvc.engine import Engine
from pyvc import spec as S, cmdspec
import contracts.eems_common, contracts.eems_basic as EB, contracts.eems_fuzzy
repo = Repo()
names = sys.argv[1:] or ["AMinusB", "Sum"]
for n in names:
    ci = None
    for m in ("mpilot/libraries/eems/basic.py", "mpilot/libraries/eems/fuzzy.py"):
        if n in repo.modules[m].classes: ci = repo.modules[m].classes[n]
    eng = Engine(repo, S.CONTRACTS, S.LOOPS)
    t0 = time.time()
    try:
        res = cmdspec.verify_execute(eng, ci, EB.SPECS[n])
    except Exception as e:
        import traceback; traceback.print_exc()
        res = eng.results
    print("==", n, "%.2fs" % (time.time() - t0))
    for r in res:
        flag = "ok " if r["status"] == "unsat" else "FAIL(%s)" % r["status"]
        print("  ", flag, r["name"], r.get("trail", "")[-4:] if r["status"] != "unsat" else "")
