import sys, time
sys.path.insert(0, '/verif')
from pyvc.extract import Repo
from pyvc.engine import Engine
from pyvc import spec as S, cmdspec, registry
repo = Repo()
SPECS, classes = registry.load(repo)
names = sys.argv[1:] or sorted(SPECS)
for n in names:
    ci = classes[n]
    eng = Engine(repo, S.CONTRACTS, S.LOOPS)
    t0 = time.time()
    try:
        res = cmdspec.verify_execute(eng, ci, SPECS[n])
    except Exception as e:
        import traceback; traceback.print_exc()
        res = eng.results
    bad = [r for r in res if r["status"] != "unsat"]
    print("==", n, "%.2fs" % (time.time() - t0), "%d VCs, %d not discharged" % (len(res), len(bad)))
    for r in bad:
        print("   FAIL(%s)" % r["status"], r["name"], r.get("trail", "")[-4:])
