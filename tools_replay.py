import sys, time, json
sys.path.insert(0, '/verif')
from pyvc.extract import Repo
from pyvc.engine import Engine
from pyvc import spec as S, cmdspec, registry, replay
repo = Repo()
SPECS, classes = registry.load(repo)
for n in sys.argv[1:]:
    ci = classes[n]
    eng = Engine(repo, S.CONTRACTS, S.LOOPS)
    res = cmdspec.verify_execute(eng, ci, SPECS[n])
    for r in res:
        if r["status"] == "sat" and "model_obj" in r:
            case = replay.concretize(eng.x, r["state"], r["model_obj"], ci)
            print("VC", r["name"])
            print(" case", json.dumps(case))
            out = replay.run_real([case])[0]
            exp = replay.expected(repo, ci, SPECS[n], case, S.CONTRACTS, S.LOOPS)
            print(" admissible", exp.admissible, exp.note, "exp.exc", exp.exc, "exp.result", exp.result)
            print(" real:", out["outcome"], out.get("exc_class"), out.get("result"))
            print(" violated:", replay.compare(exp, out, case) if exp.admissible else None)
            break
